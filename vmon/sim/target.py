"""Simulated logical unit behind the binding stand-ins.

Written against vmon/spec only: CDBs are decoded with the *reference* layouts
(never with the library), validated strictly (length for the group, reserved
bits zero, LBA range, buffer sizes equal to the transfer the CDB announces) and
executed on a sparse block store.  A fault schedule can override the status of
the n-th command.
"""
from .. import refcodec as R
from ..spec import cdb as S, datain as D, sense as SN

GOOD, CHECK = 0x00, 0x02

BY_OP = {}
for _c in S.COMMANDS.values():
    if _c.name in ("TestUnitReady", "Inquiry", "ReadCapacity10", "ReadCapacity16", "Read10", "Read12", "Read16", "Write10", "Write12",
                   "Write16", "WriteSame10", "WriteSame16", "SynchronizeCache10", "SynchronizeCache16", "ReportLuns", "GetLBAStatus"):
        BY_OP[(_c.op, _c.sa[1] if _c.sa else None)] = _c


# identification strings of real units (vendor, product), as in the kernel's device lists and on common hardware: what a unit
# calls itself must not change how the initiator library treats it
KNOWN_IDS = [(b"TOSHIBA", b"CDROM"), (b"TOSHIBA", b"CD-ROM XM-3401TA"), (b"TOSHIBA", b"CD-ROM"), (b"TOSHIBA", b"MK5061GSYN"), (b"TOSHIBA", b"DVD-ROM SD-M1401"),
             (b"CHINON", b"CD-ROM CDS-431"), (b"CHINON", b"CD-ROM CDS-535"), (b"DENON", b"DRD-25X"), (b"HITACHI", b"DK312C"), (b"HITACHI", b"OPEN-V"), (b"IBM", b"2104-DU3"),
             (b"IBM", b"ULT3580-TD5"), (b"IBM", b"2145"), (b"IMS", b"CDD521/10"), (b"MAXTOR", b"XT-3280"), (b"MEDIAVIS", b"CDR-H93MV"), (b"MICROP", b"4110"),
             (b"NEC", b"CD-ROM DRIVE:841"), (b"PHILIPS", b"PCA80SC"), (b"RODIME", b"RO3000S"), (b"SUN", b"SENA"), (b"SANYO", b"CRD-250S"), (b"SEAGATE", b"ST157N"),
             (b"SEAGATE", b"ST8000NM0075"), (b"SONY", b"CD-ROM CDU-8001"), (b"SONY", b"SDT-9000"), (b"TEAC", b"CD-R55S"), (b"TEXEL", b"CD-ROM"), (b"QUANTUM", b"LPS525S"),
             (b"QUANTUM", b"DLT7000"), (b"HP", b"C1750A"), (b"HP", b"Ultrium 5-SCSI"), (b"HP", b"MSL G3 Series"), (b"YAMAHA", b"CDR100"), (b"iomega", b"jaz 1GB"),
             (b"IOMEGA", b"ZIP 100"), (b"INSITE", b"Floptical   F*8I"), (b"Generic", b"USB SD Reader"), (b"Generic-", b"SD/MMC"), (b"JMicron", b"USB to ATA/ATAPI"),
             (b"JMicron", b"Generic"), (b"Initio", b"INIC-1610P"), (b"Feiya", b"SD/SDHC Reader"), (b"SuperTop", b"USB 2.0 SATA"), (b"ASMT", b"2105"), (b"WD", b"My Passport 0748"),
             (b"WDC", b"WD40EFRX-68N32N0"), (b"Seagate", b"Expansion"), (b"ATA", b"Samsung SSD 860"), (b"ATA", b"ST3500418AS"), (b"LIO-ORG", b"block"), (b"NETAPP", b"LUN"),
             (b"EMC", b"SYMMETRIX"), (b"DGC", b"RAID 5"), (b"3PARdata", b"VV"), (b"COMPAQ", b"MSA1000"), (b"STK", b"T10000B"), (b"STK", b"SL500"), (b"ADIC", b"Scalar i500"),
             (b"HL-DT-ST", b"DVDRAM GH24NSB0"), (b"PIONEER", b"DVD-RW  DVR-111D"), (b"PLEXTOR", b"CD-R   PX-W4012A"), (b"MATSHITA", b"DVD-RAM UJ8E2"), (b"VMware", b"Virtual disk"),
             (b"QEMU", b"QEMU HARDDISK"), (b"QEMU", b"QEMU CD-ROM"), (b"Msft", b"Virtual Disk"), (b"NECVMWar", b"VMware IDE CDR10"), (b"Kingston", b"DataTraveler 3.0"),
             (b"SanDisk", b"Cruzer Blade"), (b"Apple", b"iPod"), (b"NOKIA", b"Nokia N95"), (b"Linux", b"scsi_debug"), (b"FreeBSD", b"iSCSI Disk"), (b"Nimble", b"Server"),
             (b"PURE", b"FlashArray"), (b"DELL", b"PERC H730 Mini"), (b"LSI", b"MR9271-8i"), (b"AMCC", b"9650SE-2LP DISK"), (b"Promise", b"VTrak E610f")]


class Target:
    def __init__(self, devtype=0, qualifier=0, blocksize=512, nblocks=1 << 20, vendor=b"VMON    ", product=b"SIMULATED LUN   ", rev=b"0001"):
        self.devtype = devtype
        self.qualifier = qualifier
        self.bs = blocksize
        self.nblocks = nblocks
        self.vendor, self.product, self.rev = vendor, product, rev
        self.version = 6  # the VERSION byte and RESPONSE DATA FORMAT field of the standard INQUIRY data
        self.response_data_format = 2
        self.inquiry_length = 96  # 36 = the minimum standard INQUIRY data, 260 the maximum (ADDITIONAL LENGTH FFh)
        self.store = {}
        self.log = []
        self.anomalies = []
        self.faults = {}
        self.unsupported = set()  # command names this (still conformant) logical unit does not implement
        self.inquiry_or = {}  # offset -> bits set on top of the encoded standard INQUIRY data (obsolete flags of older standards: LINKED, RELADR, MCHNGR ...)
        self.granule = 1  # provisioning granularity in blocks: GET LBA STATUS answers with the whole granule that holds the LBA asked for
        self.block_limits = None  # values of the Block Limits VPD page (B0h) when the unit has one
        self.n = 0

    # -- helpers ----------------------------------------------------------
    def sense(self, key, asc, ascq=0):
        return SN.build(0x70, 0, key, asc, ascq, 18)

    def illegal(self, why, asc=0x24):
        self.anomalies.append(why)
        return CHECK, self.sense(5, asc)

    def inquiry_data(self):
        f = D.FORMATS["inquiry.standard"]
        v = {k: 0 for k in f.st.names()}
        v.update({"peripheral_qualifier": self.qualifier, "peripheral_device_type": self.devtype, "version": self.version, "response_data_format": self.response_data_format,
                  "additional_length": self.inquiry_length - 5, "_total": min(self.inquiry_length, 96), "t10_vendor_identification": self.vendor, "product_identification": self.product,
                  "product_revision_level": self.rev, "cmdque": 1})
        # beyond byte 95: vendor specific parameters (ADDITIONAL LENGTH up to 255, i.e. up to 260 bytes)
        out = bytearray(f.encode(v) + bytes((0xA0 + i) & 0xFF for i in range(max(0, self.inquiry_length - 96))))
        for off, bits in self.inquiry_or.items():
            if off < len(out):
                out[off] |= bits
        return bytes(out)

    def read_block(self, lba):
        return self.store.get(lba, bytes(self.bs))

    # -- entry point ------------------------------------------------------
    def handle(self, ev):
        idx = self.n
        self.n += 1
        cdb = ev["cdb"]
        rec = {"n": idx, "cdb": cdb, "transport": ev.get("transport")}
        self.log.append(rec)
        if idx in self.faults:
            rec["fault"] = self.faults[idx]
            # (what was asked is recorded all the same, for monitors that compare it with the caller's arguments)
            if cdb:
                _sa = cdb[1] & 0x1F if cdb[0] in (0x9E, 0xA3) and len(cdb) > 1 else None
                _c = BY_OP.get((cdb[0], _sa))
                if _c is not None and len(cdb) == _c.length:
                    rec["name"] = _c.name
                    rec["fields"] = {k: R.get(cdb, *pos) for k, pos in _c.fields.items()}
            return self.faults[idx]
        if not cdb:
            return self.illegal("empty CDB", 0x20)
        op = cdb[0]
        want_len = {0: 6, 1: 10, 2: 10, 4: 16, 5: 12}.get(op >> 5)
        if want_len is None or len(cdb) != want_len:
            return self.illegal("CDB of %d bytes for opcode %02Xh (group length %s)" % (len(cdb), op, want_len), 0x20)
        sa = cdb[1] & 0x1F if op in (0x9E, 0xA3) else None
        c = BY_OP.get((op, sa))
        if c is None:
            rec["name"] = "unsupported"
            return CHECK, self.sense(5, 0x20)
        rec["name"] = c.name
        if c.name in self.unsupported:
            return CHECK, self.sense(5, 0x20)
        f = {k: R.get(cdb, *pos) for k, pos in c.fields.items()}
        rec["fields"] = f
        mask = R.mask_bytes(c.length, list(c.fields.values()) + [(0, 7, 8)])
        if any(cdb[i] & ~mask[i] & 0xFF for i in range(c.length)):
            return self.illegal("%s: reserved bits set in CDB %s" % (c.name, cdb.hex()))
        if "eff_out" in ev:  # iSCSI: only what the task's direction/length lets through
            din, dout = ev["eff_in"], ev["eff_out"]
            in_len = ev["eff_in_len"]
        else:
            din, dout = ev.get("in"), ev.get("out")
            in_len = len(din) if din is not None else 0
        out_len = len(dout) if dout is not None else 0
        name = c.name

        def put(data):
            n = min(len(data), in_len)
            if n:
                din[:n] = data[:n]

        if c.xfer == "none" or name.startswith("Synchronize"):
            if in_len or out_len:
                self.anomalies.append("%s carries buffers in=%d out=%d" % (name, in_len, out_len))
        if name == "TestUnitReady":
            return GOOD, None
        if name == "Inquiry":
            if in_len != f["alloc"]:
                self.anomalies.append("INQUIRY: data-in buffer %d, allocation length %d" % (in_len, f["alloc"]))
            if f["evpd"] == 0:
                if f["page_code"]:
                    return self.illegal("INQUIRY: page code without EVPD")
                put(self.inquiry_data())
                return GOOD, None
            hdr = bytes([(self.qualifier << 5) | self.devtype, f["page_code"]])
            if f["page_code"] == 0x00:
                body = bytes([0x00, 0x80, 0x83] + ([0xB0] if self.block_limits else []))
            elif f["page_code"] == 0xB0 and self.block_limits:
                fm = D.FORMATS["inquiry.vpdb0"]
                v = {k: 0 for k in fm.body.names()}
                v.update(self.block_limits)
                v.update({"peripheral_qualifier": self.qualifier, "peripheral_device_type": self.devtype, "page_code": 0xB0})
                put(fm.encode(v))
                return GOOD, None
            elif f["page_code"] == 0x80:
                body = b"VMON%08d" % 1234
            elif f["page_code"] == 0x83:
                body = D.encode_designation_descriptor({"protocol_identifier": 0, "code_set": 1, "piv": 0, "association": 0, "designator_type": 3,
                                                        "designator_length": 8, "designator": {"naa": 5, "ieee_company_id": 0x123456, "vendor_specific_identifier": 0xABCDEF012}})
            else:
                return self.illegal("INQUIRY: unsupported VPD page %02Xh" % f["page_code"])
            put(hdr + R.be(len(body), 2) + body)
            return GOOD, None
        if name == "ReportLuns":
            put(bytes(R.be(8, 4)) + bytes(4) + bytes(8))
            return GOOD, None
        if name == "ReadCapacity10":
            put(bytes(R.be(min(self.nblocks - 1, 0xFFFFFFFF), 4)) + bytes(R.be(self.bs, 4)))
            return GOOD, None
        if name == "ReadCapacity16":
            if in_len != f["alloc"]:
                self.anomalies.append("READ CAPACITY(16): data-in buffer %d, allocation length %d" % (in_len, f["alloc"]))
            put(bytes(R.be(self.nblocks - 1, 8)) + bytes(R.be(self.bs, 4)) + bytes(20))
            return GOOD, None
        if name == "GetLBAStatus":
            g = max(1, self.granule)
            start = f["lba"] - f["lba"] % g  # SBC: the first descriptor contains the starting LBA (it need not begin there)
            body = bytes(R.be(start, 8)) + bytes(R.be(min(g, self.nblocks - start) if start < self.nblocks else 1, 4)) + bytes([0 if f["lba"] in self.store else 1, 0, 0, 0])
            if g > 1 and start + g < self.nblocks:
                body += bytes(R.be(start + g, 8)) + bytes(R.be(g, 4)) + bytes([1, 0, 0, 0])
            put(bytes(R.be(4 + len(body), 4)) + bytes(4) + body)
            return GOOD, None
        if name.startswith("Synchronize"):
            if f["lba"] + f["numblks"] > self.nblocks:
                return CHECK, self.sense(5, 0x21)
            return GOOD, None
        lba = f["lba"]
        if name.startswith("Read"):
            tl = f["tl"]
            if lba + tl > self.nblocks:
                return CHECK, self.sense(5, 0x21)
            if in_len != tl * self.bs:
                self.anomalies.append("%s: data-in buffer %d bytes, CDB announces %d blocks of %d" % (name, in_len, tl, self.bs))
            data = b"".join(self.read_block(lba + i) for i in range(tl))
            put(data)
            rec["read"] = (lba, tl)
            return GOOD, None
        if name.startswith("WriteSame"):
            nb = f["nb"]
            if nb == 0:
                nb = self.nblocks - lba if lba < self.nblocks else 0  # SBC: 0 = to the end; workloads avoid it
            if lba + nb > self.nblocks:
                return CHECK, self.sense(5, 0x21)
            if f.get("ndob"):
                if out_len:
                    self.anomalies.append("WRITE SAME(16) NDOB=1 with %d data-out bytes" % out_len)
                block = bytes(self.bs)
            else:
                if out_len != self.bs:
                    self.anomalies.append("%s: data-out buffer %d bytes, one block is %d" % (name, out_len, self.bs))
                    return self.illegal("%s: wrong data-out size" % name)
                block = bytes(dout) if dout is not None else b""
            if nb > 1 << 18:
                return self.illegal("%s: refusing %d blocks in simulation" % (name, nb))
            for i in range(nb):
                self.store[lba + i] = block
            rec["write"] = (lba, nb)
            return GOOD, None
        if name.startswith("Write"):
            tl = f["tl"]
            if lba + tl > self.nblocks:
                return CHECK, self.sense(5, 0x21)
            if out_len != tl * self.bs:
                self.anomalies.append("%s: data-out buffer %d bytes, CDB announces %d blocks of %d" % (name, out_len, tl, self.bs))
                return self.illegal("%s: wrong data-out size" % name)
            data = bytes(dout) if dout is not None else b""
            for i in range(tl):
                self.store[lba + i] = data[i * self.bs : (i + 1) * self.bs]
            rec["write"] = (lba, tl)
            return GOOD, None
        return self.illegal("unhandled %s" % name)
