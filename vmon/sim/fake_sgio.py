"""Stand-in for the cython-sgio extension module (what scsi_device.py uses).

    sgio.execute(file, cdb, data_out, data_in, ...)
    sgio.CheckConditionError(sense)  with .sense
    sgio.UnspecifiedError

Every call is recorded (object identities, lengths, the file object and the
inode behind it) and forwarded to `handler(event) -> (status, sense)`.
"""
import os
import types

GOOD = 0x00
CHECK_CONDITION = 0x02


class CheckConditionError(Exception):
    def __init__(self, sense):
        Exception.__init__(self, "CHECK CONDITION")
        self.sense = sense


class UnspecifiedError(Exception):
    pass


def make_module():
    m = types.ModuleType("sgio")
    m.__file__ = __file__
    m.CheckConditionError = CheckConditionError
    m.UnspecifiedError = UnspecifiedError
    m.log = []
    m.handler = None
    m.resid = None  # optional callable(event) -> residual byte count returned by execute()
    m.pre_hooks = []  # callables(event) run at the moment the command would hit the kernel

    def execute(file, cdb, data_out, data_in, max_sense_data_length=32, return_sense_buffer=False):
        ev = {
            "transport": "sgio",
            "cdb": bytes(cdb) if cdb is not None else None,
            "cdb_obj": cdb,
            "out": data_out,
            "in": data_in,
            "out_len": _len(data_out),
            "in_len": _len(data_in),
            "out_id": id(data_out),
            "in_id": id(data_in),
            "file": file,
            "file_closed": getattr(file, "closed", None),
            "ino": None,
            "n": len(m.log),
        }
        try:
            if not ev["file_closed"]:
                ev["ino"] = os.fstat(file.fileno()).st_ino
        except (OSError, ValueError, AttributeError):
            pass
        m.log.append(ev)
        for h in list(m.pre_hooks):
            h(ev)
        if ev["file_closed"]:
            # what the real binding does with a closed file object: file.fileno() refuses it, nothing reaches the kernel
            raise ValueError("I/O operation on closed file")
        status, sense = GOOD, None
        if m.handler is not None:
            status, sense = m.handler(ev)
        ev["status"] = status
        ev["sense"] = sense
        if status == GOOD:
            # cython-sgio returns the residual count of the data transfer
            return int(m.resid(ev)) if m.resid is not None else 0
        if status == CHECK_CONDITION:
            raise CheckConditionError(sense)
        raise UnspecifiedError("SCSI status %#x" % status)

    m.execute = execute
    return m


def _len(x):
    try:
        return len(x)
    except TypeError:
        return None
