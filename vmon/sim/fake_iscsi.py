"""Stand-in for the cython-iscsi extension module (what iscsi_device.py uses)."""
import types


def make_module(with_raw_sense=True):
    m = types.ModuleType("iscsi")
    m.__file__ = __file__
    m.SCSI_XFER_NONE = 0
    m.SCSI_XFER_READ = 1
    m.SCSI_XFER_WRITE = 2
    m.ISCSI_SESSION_NORMAL = 2
    m.ISCSI_HEADER_DIGEST_NONE_CRC32C = 1
    m.log = []
    m.disconnect_result = None
    m.calls = []  # (what, args) for Context/URL/connect/disconnect
    m.handler = None
    m.with_raw_sense = with_raw_sense
    m.omit_absent_sense = False

    class URL:
        def __init__(self, ctx, url):
            m.calls.append(("URL", url))
            rest = url[len("iscsi://"):] if url.startswith("iscsi://") else url
            parts = rest.split("/")
            self.portal = parts[0]
            self.target = parts[1] if len(parts) > 1 else ""
            try:
                self.lun = int(parts[2]) if len(parts) > 2 else 0
            except ValueError:
                self.lun = 0

    class Task:
        def __init__(self, cdb, dir, xferlen):
            self.cdb = cdb
            self.dir = dir
            self.xferlen = xferlen
            self.status = 0
            if m.with_raw_sense:
                self.raw_sense = None

    class Context:
        def __init__(self, initiator_name):
            self.initiator_name = initiator_name
            self.connected = False
            self.disconnects = 0
            m.calls.append(("Context", initiator_name))
            m.contexts.append(self)

        def set_targetname(self, t):
            m.calls.append(("set_targetname", t))
            self.targetname = t

        def set_session_type(self, t):
            self.session_type = t

        def set_header_digest(self, d):
            self.header_digest = d

        def connect(self, portal, lun):
            m.calls.append(("connect", portal, lun))
            self.connected = True
            self.portal, self.lun = portal, lun

        def disconnect(self):
            m.calls.append(("disconnect",))
            self.disconnects += 1
            self.connected = False
            return m.disconnect_result  # libiscsi: 0, or a negative number when the logout failed (the target dropped the connection)

        def command(self, lun, task, dataout, datain):
            ev = {
                "transport": "iscsi",
                "cdb": bytes(task.cdb) if task.cdb is not None else None,
                "cdb_obj": task.cdb,
                "out": dataout,
                "in": datain,
                "out_len": _len(dataout),
                "in_len": _len(datain),
                "out_id": id(dataout),
                "in_id": id(datain),
                "dir": task.dir,
                "xferlen": task.xferlen,
                "lun": lun,
                "connected": self.connected,
                "n": len(m.log),
            }
            # what the target really takes part in is decided by the task's
            # direction and expected transfer length, as in libiscsi
            ev["eff_out"] = None
            if task.dir == m.SCSI_XFER_WRITE and dataout is not None:
                try:
                    ev["eff_out"] = dataout[: task.xferlen]
                except TypeError:  # length-only stand-in buffer (harness.Huge)
                    ev["eff_out"] = dataout
            ev["eff_in"] = datain if task.dir == m.SCSI_XFER_READ else None
            ev["eff_in_len"] = min(task.xferlen, _len(datain) or 0) if task.dir == m.SCSI_XFER_READ else 0
            m.log.append(ev)
            status, sense = 0, None
            if m.handler is not None:
                status, sense = m.handler(ev)
            ev["status"] = status
            ev["sense"] = sense
            task.status = status
            if m.with_raw_sense:
                task.raw_sense = sense
                if sense is None and m.omit_absent_sense:
                    # a binding that has the attribute only for tasks that came back with sense data
                    del task.raw_sense

    m.contexts = []
    m.URL = URL
    m.Task = Task
    m.Context = Context
    return m


def _len(x):
    try:
        return len(x)
    except TypeError:
        return None
