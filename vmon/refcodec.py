"""Independent bit-level reference codec.

A field is (byte, msb, width) in T10's own picture: its most significant bit is
bit `msb` (7..0) of byte `byte`, and it extends `width` bits towards less
significant bits, continuing into following bytes (big-endian).  Bits are placed
and extracted one at a time by absolute bit index.  Nothing here shares code or
notation with pyscsi.utils.converter (which shifts [mask, offset] pairs).
"""


def _start(byte, msb):
    if not 0 <= msb <= 7:
        raise ValueError("msb out of range")
    return 8 * byte + (7 - msb)


def put(buf, byte, msb, width, value):
    if value < 0 or value >> width:
        raise ValueError("value %r does not fit %d bits" % (value, width))
    s = _start(byte, msb)
    for i in range(width):
        pos = s + i
        B, b = divmod(pos, 8)
        m = 0x80 >> b
        if (value >> (width - 1 - i)) & 1:
            buf[B] |= m
        else:
            buf[B] &= ~m & 0xFF


def get(buf, byte, msb, width):
    s = _start(byte, msb)
    v = 0
    for i in range(width):
        B, b = divmod(s + i, 8)
        v = (v << 1) | (1 if buf[B] & (0x80 >> b) else 0)
    return v


def bitset(byte, msb, width):
    s = _start(byte, msb)
    return set(range(s, s + width))


def mask_bytes(nbytes, fields):
    """bytearray with a 1 in every bit covered by one of `fields`."""
    m = bytearray(nbytes)
    for byte, msb, width in fields:
        put(m, byte, msb, width, (1 << width) - 1)
    return m


def be(value, nbytes):
    out = bytearray(nbytes)
    for i in range(nbytes):
        out[nbytes - 1 - i] = (value >> (8 * i)) & 0xFF
    return out


def from_be(b):
    v = 0
    for x in b:
        v = v * 256 + x
    return v


class Struct:
    """Fixed layout: list of (name, byte, msb, width) bit fields and
    (name, byte, 'b', nbytes) byte-string fields."""

    def __init__(self, fields, size=None):
        self.fields = list(fields)
        self.size = size
        self.by_name = {f[0]: f for f in self.fields}
        end = 0
        seen = set()
        for name, byte, a, w in self.fields:
            if a == "b":
                bits = set(range(8 * byte, 8 * (byte + w)))
            else:
                bits = bitset(byte, a, w)
            if bits & seen:
                raise ValueError("reference layout overlaps at %s" % name)
            seen |= bits
            end = max(end, (max(bits) // 8) + 1) if bits else end
        self.min_size = end
        if size is not None and end > size:
            raise ValueError("reference layout larger than its size")

    def names(self):
        return [f[0] for f in self.fields]

    def width(self, name):
        f = self.by_name[name]
        return ("b", f[3]) if f[2] == "b" else ("i", f[3])

    def encode(self, values, buf=None, base=0):
        if buf is None:
            buf = bytearray(self.size if self.size is not None else self.min_size)
        for name, byte, a, w in self.fields:
            if name not in values:
                continue
            v = values[name]
            if a == "b":
                v = bytes(v)
                if len(v) != w:
                    raise ValueError("%s needs %d bytes" % (name, w))
                buf[base + byte : base + byte + w] = v
            else:
                put(buf, base + byte, a, w, v)
        return buf

    def decode(self, buf, base=0):
        out = {}
        for name, byte, a, w in self.fields:
            if a == "b":
                out[name] = bytes(buf[base + byte : base + byte + w])
            else:
                out[name] = get(buf, base + byte, a, w)
        return out

    def bits_of(self, name, base=0):
        name_, byte, a, w = self.by_name[name]
        if a == "b":
            return set(range(8 * (base + byte), 8 * (base + byte + w)))
        return bitset(base + byte, a, w)
