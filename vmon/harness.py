"""Shared workload machinery: argument generation for the 42 constructors,
construction through the class or through the facade, CDB oracle."""
import itertools

from . import gen, refcodec
from .spec import cdb as S

BLOCKSIZES = [1, 512, 520, 4096, 65536]


class Recorder:
    """Plain device object (no transport) that records what the facade hands
    to it.  `fill` may write a response into cmd.datain."""

    def __init__(self, opcodes, fill=None):
        self.opcodes = opcodes
        self.devicetype = None
        self.calls = []
        self.fill = fill

    def execute(self, cmd, en_raw_sense=False):
        self.calls.append((cmd, en_raw_sense, id(cmd.datain), id(cmd.dataout)))
        if self.fill is not None:
            self.fill(cmd)

    def open(self):
        pass

    def close(self):
        pass


def make_facade(dev, blocksize=0):
    """SCSI facade over dev without the attach INQUIRY (dev=None skips it)."""
    from pyscsi.pyscsi.scsi import SCSI

    s = SCSI(None, blocksize)
    s.device = dev
    return s


def defaults(cmd):
    return {k: v[2] for k, v in cmd.args.items() if v[2] is not S.REQ}


def flag_args(cmd):
    return [k for k, v in cmd.args.items() if v[0] == "u" and v[1] == 1]


def int_args(cmd):
    return [k for k, v in cmd.args.items() if v[0] in ("u", "alloc", "tl", "cdtl")]


def _cap_values(vals, unit, cap):
    return [v for v in vals if v * unit <= cap]


def domain(cmd, name, a, cap=S.CAP, small=False):
    kind, width, _d = cmd.args[name]
    bset = gen.small_boundary(width) if small else gen.boundary(width)
    if kind == "u":
        return bset
    if kind == "alloc":
        return _cap_values(bset, 1, cap)
    if kind == "tl":
        return _cap_values(bset, a.get("blocksize") or 1, cap)
    if kind == "cdtl":
        return _cap_values(bset, 3072, cap)
    raise KeyError(name)


def fill_derived(cmd, a, rng):
    """complete a (in place) with the data-carrying / derived arguments."""
    for name, (kind, width, _d) in cmd.args.items():
        if kind == "wdata":
            n = a["blocksize"] * a["tl"]
            a[name] = pattern_bytes(n, rng.getrandbits(8))
        elif kind == "blockdata":
            a[name] = pattern_bytes(a["blocksize"], rng.getrandbits(8))
    return a


def pattern_bytes(n, salt=0):
    if n <= 0:
        return bytearray(0)
    unit = bytes((i * 7 + salt) & 0xFF for i in range(256))
    return bytearray((unit * (n // 256 + 1))[:n])


# codes that mean something to a device (and may mean something to the library): page codes with a format of their own, the
# ATA commands and FEATURES values that pass-through callers actually send
MEANINGFUL = {
    ("Inquiry", "page_code"): [0x00, 0x80, 0x83, 0x86, 0x87, 0x88, 0x89, 0x8A, 0x8F, 0xB0, 0xB1, 0xB2, 0xB3, 0xB4, 0xB6, 0xC0],
    ("ModeSense6", "page_code"): [0x01, 0x02, 0x03, 0x04, 0x08, 0x0A, 0x18, 0x19, 0x1A, 0x1C, 0x1D, 0x2A, 0x3F, 0x00],
    ("ModeSense10", "page_code"): [0x01, 0x02, 0x03, 0x04, 0x08, 0x0A, 0x18, 0x19, 0x1A, 0x1C, 0x1D, 0x2A, 0x3F, 0x00],
    ("ModeSense6", "sub_page_code"): [0x00, 0x01, 0x02, 0x03, 0xF1, 0xFF],
    ("ModeSense10", "sub_page_code"): [0x00, 0x01, 0x02, 0x03, 0xF1, 0xFF],
    ("ata", "command"): [0xEC, 0xA1, 0xB0, 0x92, 0x93, 0x2F, 0x3F, 0x47, 0x57, 0x25, 0x35, 0x20, 0x30, 0xC8, 0xCA, 0xE5, 0xE7, 0xEA, 0xF1, 0xF2, 0x06, 0x60, 0x61, 0xB4, 0xE0, 0xE1],
    ("ata", "fetures"): [0x00, 0x01, 0x03, 0x07, 0x0E, 0x0F, 0xD0, 0xD1, 0xD2, 0xD3, 0xD4, 0xD5, 0xD6, 0xD8, 0xD9, 0xDA, 0xDB, 0x02, 0x82, 0xAA, 0x55],
    ("ata", "lba"): [0xC24F00, 0xC24F01, 0xC24FE0, 0x2CF400, 0x000030, 0x0000E0, 0x4F00C2, 0x000000, 0xFFFFFF],
}


def novel_products(cmd, rng, cap=S.CAP, limit=6000):
    """arguments in which up to three fields at once take integer literals that the library's source has and the recorded
    baseline (vmon/srcdict.py) has not, the rest random: a trigger written as `a == X and b == Y and c == Z` is hit although a
    uniform draw never would. Nothing on the unchanged tree."""
    import itertools

    from vmon import srcdict

    nv = srcdict.novel_exact()
    if not nv:
        return
    per = {}
    for name, (kind, width, d) in cmd.args.items():
        if kind in ("u", "alloc", "tl", "cdtl"):
            vals = srcdict.novel_exact(width) if width > 8 else [v for v in nv if 0 <= v < (1 << width)]
            # ... and their neighbours (the inside of `512 < n < 572` begins at 513 and ends at 571)
            vals = sorted({w for v in vals for w in (v - 1, v, v + 1) if 0 <= w < (1 << width)})
            if vals:
                per[name] = vals if len(vals) <= 12 else rng.sample(vals, 12)
    names = sorted(per)
    combos = []
    for k in (1, 2, 3):
        for sub in itertools.combinations(names, k):
            for vals in itertools.product(*(per[n] for n in sub)):
                combos.append(dict(zip(sub, vals)))
    if len(combos) > limit:
        combos = rng.sample(combos, limit)
    # ATA pass-through: what the forced fields mean depends on the protocol flags around them, so those are gone through in full
    around = [{}]
    if cmd.xfer == "ata":
        around = [{"byte_block": bb, "t_type": tt, "t_length": tl_, "blocksize": bs_} for bb in (0, 1) for tt in (0, 1) for tl_ in (0, 1, 2, 3) for bs_ in (512, 4096)
                  if not (bb and tt and tl_ and not bs_)]
    reps = max(2, min(400, 2400 // max(1, len(combos))))  # few combinations: each is tried with many draws of the other fields
    for force in combos:
        for extra in around:
            for _rep in range(1 if extra else reps):
                f2 = dict(extra, **force)
                a = random_args(cmd, rng, cap=cap, force=f2)
                if all(a.get(k) == v for k, v in force.items()):
                    yield a


def random_args(cmd, rng, cap=S.CAP, force=None):
    a = {}
    pool = gen.related_pool(rng) if rng.random() < 0.15 else None  # arguments that are equal / adjacent / double one another / complementary
    for name, (kind, width, d) in cmd.args.items():
        if kind == "bs":
            if d is S.REQ:
                a[name] = rng.choice(BLOCKSIZES)
            else:
                a[name] = rng.choice([0, 0, 512, 520, 4096])
    for name, (kind, width, d) in cmd.args.items():
        if kind == "u":
            sem = MEANINGFUL.get((cmd.name, name)) or MEANINGFUL.get((cmd.xfer, name))
            if pool is not None and width >= 8 and rng.random() < 0.8:
                a[name] = gen.related_value(rng, width, pool)
            else:
                a[name] = rng.choice(sem) if sem and rng.random() < 0.3 else gen.rand_value(rng, width)
        elif kind in ("alloc", "tl", "cdtl"):
            unit = {"alloc": 1, "tl": a.get("blocksize") or 1, "cdtl": 3072}[kind]
            hi = min((1 << width) - 1, cap // unit)
            r = rng.random()
            sv = gen.source_value(rng, width, hi=hi)
            if pool is not None and rng.random() < 0.8 and 0 <= (pv := rng.choice(pool)) <= hi:
                a[name] = pv
            elif sv is not None:
                a[name] = sv
            elif r < 0.2:
                a[name] = rng.choice(_cap_values(gen.boundary(width), unit, cap))
            else:
                a[name] = rng.randint(0, hi)
        elif kind == "extra_tl":
            a[name] = rng.choice([None, 0, 1, 7, 64])
        elif kind == "atadata":
            a[name] = None
    for name, v in (force or {}).items():
        if name not in cmd.args:
            continue
        kind, width, d = cmd.args[name]
        if kind in ("alloc", "tl", "cdtl"):
            unit = {"alloc": 1, "tl": a.get("blocksize") or 1, "cdtl": 3072}[kind]
            if v > cap // unit:
                continue  # (a transfer the harness has no buffer for)
        a[name] = v
    if cmd.xfer == "ata":
        _ata_clip(cmd, a, cap)
    return fill_derived(cmd, a, rng)


def _ata_clip(cmd, a, cap):
    """keep the ATA buffer below cap and avoid the refused combination"""
    if a["byte_block"] and a["t_type"] and a["t_length"] and not a.get("blocksize"):
        a["blocksize"] = 512
    t = S.ata_transfer(a)
    if t is not None and max(t) > cap:
        if a["t_length"] == 1:
            a["fetures"] &= 0x3F
        elif a["t_length"] == 2:
            a["count"] &= 0x3F
        if a.get("blocksize", 0) > 4096:
            a["blocksize"] = 4096


def base_args(cmd, fill, rng):
    """all ints at 0 ('zero'), at all-ones ('ones', clipped to caps) or random."""
    if fill == "rand":
        return random_args(cmd, rng)
    a = {}
    for name, (kind, width, d) in cmd.args.items():
        if kind == "bs":
            a[name] = 512 if d is S.REQ else 0
    for name, (kind, width, d) in cmd.args.items():
        if kind == "u":
            a[name] = 0 if fill == "zero" else (1 << width) - 1
        elif kind in ("alloc", "tl", "cdtl"):
            if fill == "zero":
                a[name] = 0
            else:
                a[name] = max(domain(cmd, name, a))
        elif kind in ("extra_tl", "atadata"):
            a[name] = None
    if cmd.xfer == "ata":
        _ata_clip(cmd, a, S.CAP)
    return fill_derived(cmd, a, rng)


def walking_cases(cmd, rng, small=False):
    """each int argument through its boundary set while the others sit at
    zero / all-ones / random."""
    for fill in ("zero", "ones", "rand"):
        for name in int_args(cmd):
            base = base_args(cmd, fill, rng)
            for v in domain(cmd, name, base, small=small):
                a = dict(base)
                a[name] = v
                if cmd.xfer == "ata":
                    _ata_clip(cmd, a, S.CAP)
                    if a[name] != v:
                        continue
                yield fill_derived(cmd, a, rng)


def flag_cases(cmd, rng, limit=256):
    names = flag_args(cmd)
    if not names:
        return
    for fl in gen.flag_products(names, limit=limit, rng=rng):
        a = base_args(cmd, "rand", rng)
        a.update(fl)
        if cmd.xfer == "ata":
            _ata_clip(cmd, a, S.CAP)
        yield fill_derived(cmd, a, rng)


def small_domain_cases(cmd, rng):
    """every value of every field of at most 8 bits (page codes, service actions, protect values ...), the required arguments
    random, the optional ones left at their defaults, once more with all flags given as 0 and as 1"""
    req = [k for k, v in cmd.args.items() if v[2] is S.REQ or k in cmd.facade_req]
    flags = flag_args(cmd)
    for name, (kind, width, _d) in cmd.args.items():
        if kind != "u" or not 2 <= width <= 8:
            continue
        for fl in ("default", "zero", "ones"):
            r = random_args(cmd, rng)
            for val in range(1 << width):
                a = {k: r[k] for k in req}
                if fl != "default":
                    for f in flags:
                        a[f] = 0 if fl == "zero" else 1
                a[name] = val
                if cmd.xfer == "ata":
                    full = dict(defaults(cmd))
                    full.update(a)
                    _ata_clip(cmd, full, S.CAP)
                    a = {k: full[k] for k in set(a) | {"blocksize"} if k in full}
                yield fill_derived(cmd, a, rng)


def fresh_str(s):
    """an equal but distinct string object, as names have that were made at run time (json.loads, parsed text, concatenation)
    rather than written in source code (those are interned: one object per spelling)"""
    return "".join(list(s))


class IntSub(int):
    """an int subclass, as callers get from enum.IntEnum / IntFlag members or numpy-style wrappers"""


def typed_variant(cmd, a):
    """the same arguments with flags given as bool and integers as instances of an int subclass"""
    out = {}
    for k, v in a.items():
        kind = cmd.args.get(k, (None,))[0]
        if kind == "u" and isinstance(v, int) and not isinstance(v, bool):
            out[k] = bool(v) if cmd.args[k][1] == 1 else IntSub(v)
        else:
            out[k] = v
    return out


def nontrivial_args(a):
    for k, v in a.items():
        if k in ("blocksize", "data"):
            continue
        if isinstance(v, int) and v:
            return True
        if isinstance(v, (dict, list)) and gen.nonzero(v):
            return True
    return False


def args_repr(a):
    parts = []
    for k in sorted(a):
        v = a[k]
        if isinstance(v, (bytes, bytearray)):
            parts.append("%s=<%d bytes>" % (k, len(v)))
        else:
            parts.append("%s=%r" % (k, v))
    return ",".join(parts)


def call_kwargs(cmd, a):
    """constructor keyword arguments from an args dict (custom data-out
    commands carry their keyword dict in a['_kwargs'])."""
    kw = {k: v for k, v in a.items() if not k.startswith("_")}
    if "_kwargs" in a:
        kw.update(a["_kwargs"])
    return kw


def construct(cmd, setname, a):
    cls = cmd.load()
    return cls(cmd.opcode_obj(setname), **call_kwargs(cmd, a))


_SIG = {}


def _sig(which):
    if which not in _SIG:
        import json
        import os

        with open(os.path.join(os.path.dirname(os.path.abspath(__file__)), "spec", which + "_sig.json")) as f:
            _SIG[which] = json.load(f)
    return _SIG[which]


def split_positional(sig, kw):
    """(args, kwargs): every leading declared parameter that is supplied goes by position, in the documented order (snapshot of
    the signatures at the pinned commit: vmon/spec/*_sig.json); the rest stays keyword"""
    args = []
    kw = dict(kw)
    for name, kind, _has_default in sig:
        if kind != "POSITIONAL_OR_KEYWORD" or name not in kw:
            break
        args.append(kw.pop(name))
    return args, kw


def construct_positional(cmd, setname, a):
    args, kw = split_positional(_sig("ctor")[cmd.name], call_kwargs(cmd, a))
    return cmd.load()(cmd.opcode_obj(setname), *args, **kw)


def facade_call_positional(cmd, scsi, a):
    kw = call_kwargs(cmd, a)
    if "blocksize" in kw and cmd.xfer != "ata":
        scsi.blocksize = kw.pop("blocksize")
    kw.update(cmd.facade_fixed)
    args, kw = split_positional(_sig("facade")[cmd.facade], kw)
    return getattr(scsi, cmd.facade)(*args, **kw)


def facade_call(cmd, scsi, a):
    kw = call_kwargs(cmd, a)
    if "blocksize" in kw and cmd.xfer != "ata":
        scsi.blocksize = kw.pop("blocksize")
    kw.update(cmd.facade_fixed)
    return getattr(scsi, cmd.facade)(**kw)


# ---------------------------------------------------------------------------
def check_cdb(cmd, cdb, a, expect_op=None):
    """reference decode of an observed CDB against the arguments.
    returns list of (mechanism, message)."""
    out = []
    op = cmd.op if expect_op is None else expect_op
    try:
        n = len(cdb)
    except TypeError:
        return [("not_bytes", "cdb is %r" % type(cdb).__name__)]
    if n == 0 or cdb[0] != op:
        out.append(("opcode", "byte0=%s expected %02x" % (("%02x" % cdb[0]) if n else "-", op)))
    if n != cmd.length:
        out.append(("length", "len=%d expected %d for opcode %02x" % (n, cmd.length, op)))
        if n < cmd.length:
            return out
    exp = cmd.expected_fields(a)
    for f, (byte, msb, width) in cmd.fields.items():
        want = exp.get(f, 0)
        if want is None:
            want = 0
        try:
            got = refcodec.get(cdb, byte, msb, width)
        except IndexError:
            out.append(("field." + f, "cdb too short for %s" % f))
            continue
        if isinstance(want, int) and want >> width:
            continue  # out-of-range argument: outside the quantifier
        if got != want:
            out.append(("field." + f, "%s: cdb carries %#x, caller supplied %#x" % (f, got, want)))
    m = refcodec.mask_bytes(cmd.length, list(cmd.fields.values()) + [(0, 7, 8)])
    resid = [cdb[i] & ~m[i] & 0xFF for i in range(cmd.length)]
    if any(resid):
        out.append(("residual", "bits outside every field set: %s" % bytes(resid).hex()))
    return out


# ---------------------------------------------------------------------------
class Huge:
    """Stands in for a byte buffer too large to allocate (>= 1 MiB): it only has
    a length.  Used so that the *real constructors* can be driven with the high
    bits of 24/32-bit allocation and transfer lengths; only len() is ever taken
    of it by the library code under test (SCSICommand.__init__ allocates, the
    transports take len())."""

    def __init__(self, n=0):
        self.n = int(n)

    def __len__(self):
        return self.n

    def __bool__(self):
        return self.n > 0


class huge_buffers:
    """context manager: inside, `bytearray(n)` evaluated in scsi_command.py
    returns a Huge for n >= 1 MiB (module-global injection; the builtin is
    untouched everywhere else)."""

    LIMIT = 1 << 20

    def __enter__(self):
        import pyscsi.pyscsi.scsi_command as sc

        self.sc = sc
        real = bytearray

        def lazy(n=0):
            if isinstance(n, int) and n >= self.LIMIT:
                return Huge(n)
            return real(n)

        sc.bytearray = lazy
        return self

    def __exit__(self, *a):
        try:
            del self.sc.bytearray
        except AttributeError:
            pass
        return False


def huge_cases(cmd, rng):
    """argument tuples whose buffers would be 1 MiB .. 2^41 bytes: every single-bit
    value and all-ones of the allocation / transfer-length argument."""
    from . import gen as _g

    for name in int_args(cmd):
        kind, width, _d = cmd.args[name]
        if kind not in ("alloc", "tl"):
            continue
        for bs in ([512, 4096] if "blocksize" in cmd.args else [None]):
            for v in _g.boundary(width):
                unit = bs or 1
                if v * unit < huge_buffers.LIMIT:
                    continue
                a = base_args(cmd, "rand", rng)
                if bs:
                    a["blocksize"] = bs
                a[name] = v
                for n2, (k2, _w2, _d2) in cmd.args.items():
                    if k2 == "wdata":
                        a[n2] = Huge(a["blocksize"] * a["tl"])
                    elif k2 == "blockdata":
                        a[n2] = pattern_bytes(a["blocksize"], 1)
                yield a


def hash_collision_cases(cmd, rng):
    """consecutive builds of one class whose wide argument values are congruent modulo 2**61-1 (CPython's int hash
    modulus) but different: what a memo keyed on hash() confuses.  Yields lists of argument dicts to build in order."""
    m61 = (1 << 61) - 1
    for name in int_args(cmd):
        kind, width, _d = cmd.args[name]
        if kind != "u" or width < 62:
            continue
        base = base_args(cmd, "rand", rng)
        for small, k in ((0, 1), (1, 1), (7, 8), (4, 4), (3, 2), (0x1234, 5)):
            big = small + k * m61
            if big >> width:
                continue
            for order in ((small, big), (big, small)):
                seq = []
                for v in order:
                    a = dict(base)
                    a[name] = v
                    seq.append(fill_derived(cmd, a, rng))
                yield seq
