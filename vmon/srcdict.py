"""A value dictionary taken from the source of the library under test (the working tree the check runs against).

A defect that needs a narrow slice of the input space - a count of exactly 16, an LBA of 2**24 or more, a length of 0x7FFE -
has the borders of that slice written down in the code. The integer literals of pyscsi/ (and small constant expressions such
as `1 << 24`, `2 ** 28 - 1`) are therefore harvested with `ast` (nothing is imported or executed) and offered to the
generators next to boundary and uniform values: `candidates(width)` for field values, `small()` for counts and lengths.

`vmon/spec/srcdict_baseline.json` (committed, written by `tools/mk_srcdict_baseline.py`) records the literals of the tree the
machinery was developed against. Literals the working tree has *in addition* are `novel`: generators prefer them (and their
neighbours, and several of them at once), which concentrates the workload on what has changed since. On the unchanged tree the
novel set is empty. The dictionary only widens the workload; it never decides a verdict.
"""
import ast
import json
import os

_HERE = os.path.dirname(os.path.abspath(__file__))
BASELINE = os.path.join(_HERE, "spec", "srcdict_baseline.json")
_LIMIT = 1 << 80
_cache = {}


def _fold(node):
    """value of a small constant integer expression, or None"""
    if isinstance(node, ast.Constant):
        v = node.value
        if isinstance(v, bool) or not isinstance(v, int):
            return None
        return v
    if isinstance(node, ast.UnaryOp) and isinstance(node.op, (ast.USub, ast.Invert)):
        v = _fold(node.operand)
        if v is None:
            return None
        return -v if isinstance(node.op, ast.USub) else ~v
    if isinstance(node, ast.BinOp):
        a, b = _fold(node.left), _fold(node.right)
        if a is None or b is None:
            return None
        try:
            if isinstance(node.op, ast.LShift) and 0 <= b <= 80:
                return a << b
            if isinstance(node.op, ast.Pow) and 0 <= b <= 80 and abs(a) <= 256:
                return a ** b
            if isinstance(node.op, ast.Mult):
                return a * b
            if isinstance(node.op, ast.Add):
                return a + b
            if isinstance(node.op, ast.Sub):
                return a - b
            if isinstance(node.op, ast.BitOr):
                return a | b
            if isinstance(node.op, ast.FloorDiv) and b:
                return a // b
        except (OverflowError, ValueError):
            return None
    return None


def harvest_file(path):
    try:
        with open(path, "rb") as f:
            tree = ast.parse(f.read())
    except (OSError, SyntaxError, ValueError):
        return set(), set()
    ints, strs = set(), set()
    for node in ast.walk(tree):
        v = _fold(node)
        if v is not None and abs(v) < _LIMIT:
            ints.add(v)
        elif isinstance(node, ast.Constant) and isinstance(node.value, (str, bytes)) and 0 < len(node.value) <= 64:
            s = node.value
            strs.add(s if isinstance(s, str) else s.decode("latin-1"))
    return ints, strs


def harvest(root):
    """{relative path: {"ints": [...], "strs": [...]}} for every .py below <root>/pyscsi"""
    out = {}
    base = os.path.join(root, "pyscsi")
    for d, _dirs, files in sorted(os.walk(base)):
        for fn in sorted(files):
            if fn.endswith(".py"):
                p = os.path.join(d, fn)
                ints, strs = harvest_file(p)
                out[os.path.relpath(p, root)] = {"ints": sorted(ints), "strs": sorted(strs)}
    return out


def _load():
    if _cache:
        return _cache
    from vmon import repo

    cur = harvest(repo.REPO)
    try:
        with open(BASELINE) as f:
            base = json.load(f)
    except (OSError, ValueError):
        base = None
    all_ints, novel_ints, novel_strs = set(), set(), set()
    for path, rec in cur.items():
        if len(rec["ints"]) <= 200 or base is None:
            all_ints.update(rec["ints"])  # (not the ASC/ASCQ table: its 700 codes would crowd out everything else)
        if base is not None:
            # new for this file: a 9 that appears in a file which had none is as telling as a number no file had
            old = base.get(path, {"ints": [], "strs": []})
            old_i, old_s = set(old["ints"]), set(old["strs"])
            novel_ints.update(v for v in rec["ints"] if v not in old_i)
            novel_strs.update(s for s in rec["strs"] if s not in old_s)
    _cache.update({"ints": sorted(all_ints), "novel": sorted(novel_ints), "novel_strs": sorted(novel_strs), "files": len(cur),
                   "baseline": base is not None, "by_width": {}, "novel_by_width": {}})
    return _cache


def _fit(values, width, exact_weight=1):
    full = (1 << width) - 1
    out = set()
    for v in values:
        for w in (v - 1, v, v + 1):
            if 0 <= w <= full:
                out.add(w)
    out = sorted(out)
    if exact_weight > 1:
        vs = set(values)
        out = out + [w for w in out if w in vs] * (exact_weight - 1)
    return out


def candidates(width):
    """literals of the library (and their neighbours) that fit an unsigned field of `width` bits"""
    c = _load()
    if width not in c["by_width"]:
        c["by_width"][width] = _fit(c["ints"], width)
    return c["by_width"][width]


def novel(width=80):
    """the same for literals that the recorded baseline does not have"""
    c = _load()
    if width not in c["novel_by_width"]:
        c["novel_by_width"][width] = _fit(c["novel"], width, exact_weight=4)
    return c["novel_by_width"][width]


def novel_exact(width=None):
    """the literals the baseline does not have, themselves; with a width: also moved up by whole bytes as far as the field
    reaches (a signature such as C24Fh in LBA bits 23..8 is written down unshifted)"""
    nov = list(_load()["novel"])
    if width is None:
        return nov
    out = []
    for v in nov:
        if 0 <= v < (1 << width):
            out.append(v)
    for v in nov:
        if v > 0xFF:
            for sh in (8, 16, 24):
                if (v << sh) < (1 << width):
                    out += [v << sh, (v << sh) | 1]
    return out


def small(limit=1100):
    """literals usable as a count or a length"""
    return [v for v in candidates(32) if v <= limit]


def novel_small(limit=70000):
    return [v for v in novel(32) if v <= limit]


def novel_strings():
    return _load()["novel_strs"]


def summary():
    c = _load()
    return {"files": c["files"], "integer_literals": len(c["ints"]), "novel_integer_literals": len(c["novel"]), "novel_strings": len(c["novel_strs"]),
            "baseline_present": c["baseline"]}
